package main

// c07.go — C07: all filesystem effects stay inside the file root / config dir.

import (
	"fmt"
	"sort"
	"strings"

	"golang.org/x/tools/go/ssa"
)

func (R *Run) rulePathTaint(rule string, only func(fn *ssa.Function) bool, floor int) {
	P := R.P
	T := newTaint(P)
	n := 0
	perFile := map[string]int{}
	for _, fn := range P.Funcs {
		if fn.Pkg == nil && fn.Parent() == nil {
			continue
		}
		root := rootFn(fn)
		if root.Pkg != nil && root.Pkg.Pkg.Path() == cmdPath {
			continue
		}
		if isClientLibrary(fn) || P.isMockRecv(fn) {
			continue
		}
		// the FileStore implementation itself only forwards its parameters (checked at its call sites)
		if strings.HasPrefix(fname(fn), "(*hotline.OSFileStore).") {
			continue
		}
		if only != nil && !only(fn) {
			continue
		}
		for _, ci := range callsIn(fn) {
			c := ci.Common()
			idxs := pathArgs(c)
			if idxs == nil {
				continue
			}
			R.analysed(fname(fn))
			for _, i := range idxs {
				if i >= len(c.Args) {
					continue
				}
				n++
				file := strings.Split(P.ipos(ci), ":")[0]
				perFile[file]++
				v := T.Class(c.Args[i])
				construct := fmt.Sprintf("%s: %s #%d arg %d", fname(fn), calleeName(c), nCreateIn(fn, ci), i)
				switch v.c {
				case SAFE:
					R.ok(rule, construct, P.ipos(ci), "path is trusted or a trusted root followed by anchored components")
				case ANCH:
					R.bad(rule, construct, P.ipos(ci), "the path handed to the filesystem is an anchored client path without a trusted root in front of it (absolute path chosen by the client): "+P.sym(c.Args[i]), v.why...)
				default:
					R.bad(rule, construct, P.ipos(ci), "client-controlled bytes reach this filesystem path without passing a root-anchoring sanitiser (ReadPath / Join(\"/\", …)): "+strings.Join(v.why, " → "), v.why...)
				}
			}
		}
	}
	var files []string
	for f, k := range perFile {
		files = append(files, fmt.Sprintf("%s×%d", f, k))
	}
	sort.Strings(files)
	R.note(fmt.Sprintf("%d filesystem path arguments classified (%s).", n, strings.Join(files, ", ")))
	var srcs []string
	for f := range T.sources {
		srcs = append(srcs, f)
	}
	sort.Strings(srcs)
	R.note("taint sources (struct fields that receive network bytes, derived from the decoders and stream reads): " + strings.Join(srcs, ", ") + ".")
	R.floor(rule, floor)
}

func checkC07(R *Run) {
	P := R.P
	R.rule("path-taint", "interprocedural, field-based classification of every path argument of os.* / filepath.Walk / FileStore.* in the server packages: client-controlled bytes (fields filled by the wire decoders or read from a connection, and everything computed from them) must have passed Join(\"/\", …) — whose Clean removes every '..' — before being placed behind a trusted root; a path argument must be SAFE (trusted, or trusted root + anchored components)")
	R.rule("readpath-shape", "ReadPath, analysed with its root parameter trusted and its path / name parameters tainted, returns a SAFE path: every path item and the file name go through Join(\"/\", …) before the root is prefixed, and the root is the first Join argument")
	R.rule("sanitiser-control", "control: the same classifier reports TAINTED for Join(root, tainted) and ANCHORED for Join(\"/\", tainted) inside the tree (positive and negative example found in the analysed code on every run)")
	R.rulePathTaint("path-taint", nil, 70)
	R.ruleRequesterRoot()
	R.ruleStorePassthrough()
	R.ruleAccountPathShape()

	// readpath-shape
	if fn := R.mustFn("hotline.ReadPath"); fn != nil {
		R.analysed(fname(fn))
		T := newTaint(P)
		T.override[fn.Params[0]] = pval{}
		T.override[fn.Params[1]] = pval{TAINT, []string{"ReadPath's filePath parameter"}}
		T.override[fn.Params[2]] = pval{TAINT, []string{"ReadPath's fileName parameter"}}
		okAll := true
		var why []string
		n := 0
		for _, ret := range returnsOf(fn) {
			v := retValue(ret, 0)
			if s, isC := constString(v); isC && s == "" {
				continue
			}
			n++
			cl := T.Class(v)
			if cl.c != SAFE {
				okAll = false
				why = append(why, fmt.Sprintf("return at %s is %s: %s", P.ipos(ret), cl.c, strings.Join(cl.why, " → ")))
			}
		}
		// the root must be the first Join argument of the final assembly
		rootFirst := false
		for _, ci := range callsIn(fn) {
			c := ci.Common()
			if n := calleeName(c); n == "path/filepath.Join" || n == "path.Join" {
				args := callArgsFlat(c)
				if len(args) > 0 && args[0] == ssa.Value(fn.Params[0]) {
					rootFirst = true
					for _, a := range args[1:] {
						if T.Class(a).c == TAINT {
							okAll = false
							why = append(why, "a component joined behind the root is not anchored at "+P.ipos(ci))
						}
					}
				}
			}
		}
		R.check(okAll && rootFirst && n > 0, "readpath-shape", "hotline.ReadPath", P.pos(fn.Pos()), "root first, every client component anchored by Join(\"/\", …)", "ReadPath no longer confines client paths: "+strings.Join(why, "; "))
	}

	// sanitiser-control: classifier sanity on constructs of the tree
	{
		T := newTaint(P)
		sawAnch, sawTaint := false, false
		for _, fn := range P.Funcs {
			for _, ci := range callsIn(fn) {
				c, ok := ci.(*ssa.Call)
				if !ok {
					continue
				}
				n := calleeName(&c.Call)
				if n != "path/filepath.Join" && n != "path.Join" {
					continue
				}
				args := callArgsFlat(&c.Call)
				if len(args) >= 2 && isConstSlash(args[0]) {
					inner := pval{}
					for _, a := range args[1:] {
						inner = joinP(inner, T.Class(a))
					}
					if inner.c == TAINT && T.Class(c).c == ANCH {
						sawAnch = true
					}
				}
			}
			eachInstr(fn, func(ins ssa.Instruction) {
				if u, ok := ins.(*ssa.UnOp); ok {
					if f, ok := loadedField(u); ok && f == "hotline.Field.Data" && T.Class(u).c == TAINT {
						sawTaint = true
					}
				}
			})
		}
		R.check(sawAnch && sawTaint, "sanitiser-control", "classifier self-check", "-", "request data classified TAINTED, Join(\"/\", tainted) classified ANCHORED", fmt.Sprintf("classifier control failed (tainted source seen: %v, anchoring of a tainted value seen: %v)", sawTaint, sawAnch))
	}
}

func init() { register("C07", checkC07) }
