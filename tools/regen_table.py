import json, glob, os, re
rows=[]
def key(n):
    m=re.match(r'C(\d+)-(\d+)', n); return (int(m.group(1)), int(m.group(2)))
for d in sorted(glob.glob('/verif/seeded/*/'), key=lambda x: key(os.path.basename(x.rstrip('/')))):
    n=os.path.basename(d.rstrip('/'))
    meta=json.load(open(d+'meta.json'))
    notes=open(d+'notes.md').read() if os.path.exists(d+'notes.md') else ''
    first=' '.join(l.strip().lstrip('#').strip() for l in notes.strip().splitlines()[:4] if l.strip())
    first=first.replace('|','/')[:150]
    det=meta.get('detected_by',{})
    rep='; '.join(f"{p}: {r}" for p,r in sorted(det.items()))
    own='yes' if meta['breaks'] in det else 'NO'
    rows.append(f"| {n} | {first} | {rep} | {own} |")
p='/verif/DESIGN.md'
s=open(p).read().split('\n')
i0=next(i for i,l in enumerate(s) if l.startswith('| C01-1 |'))
i1=i0
while i1 < len(s) and s[i1].startswith('| C'): i1+=1
s[i0:i1]=rows
open(p,'w').write('\n'.join(s))
print(len(rows), 'rows', sum(1 for r in rows if r.endswith('| NO |')), 'not own')
