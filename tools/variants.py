#!/usr/bin/env python3
"""Checker validation on code variants (thorough tier / development).

Each variant is a small source edit of /repo given as (file, old, new).  It is applied to a scratch copy
outside /repo and /verif, the copy is type-checked by the analyser's own loader (never run), the property's
rules are evaluated on it, and the copy is removed.  'seeded' variants break the property and must be
reported; 'equiv' variants keep behaviour and must stay silent.

usage: variants.py <property|all> [--name N] [--jobs J] [--keep] [--json out.json] [--build]
"""
import sys, os, json, subprocess, tempfile, shutil, importlib.util, concurrent.futures, time

HERE = os.path.dirname(os.path.abspath(__file__))
VERIF = os.path.dirname(HERE)
REPO = os.environ.get("VERIF_REPO", "/repo")
ENV = dict(os.environ, GOFLAGS="-mod=mod", GOPROXY="off", GOSUMDB="off", GOTOOLCHAIN="local", GOWORK="off")

def load_corpus():
    spec = importlib.util.spec_from_file_location("corpus", os.path.join(VERIF, "variants", "corpus.py"))
    m = importlib.util.module_from_spec(spec); spec.loader.exec_module(m)
    return m.VARIANTS

def run_variant(v, build=False, keep=False):
    t0 = time.time()
    scratch = tempfile.mkdtemp(prefix="hlv-", dir=os.environ.get("TMPDIR", "/tmp"))
    res = dict(prop=v["prop"], name=v["name"], kind=v["kind"], rule=v.get("rule", ""))
    try:
        subprocess.run(["rsync", "-a", "--exclude", ".git", "--exclude", "/docs", REPO + "/", scratch + "/"], check=True)
        if v.get("base"):
            b = subprocess.run(["git", "apply", os.path.join(VERIF, v["base"])], cwd=scratch, capture_output=True, text=True)
            if b.returncode != 0:
                res["status"] = "stale"; res["detail"] = "base patch does not apply: " + b.stderr[-200:]
                return res
        for (f, old, new) in v["edits"]:
            p = os.path.join(scratch, f)
            s = open(p).read()
            if s.count(old) != 1:
                res["status"] = "stale"; res["detail"] = f"edit anchor occurs {s.count(old)} times in {f}"
                return res
            open(p, "w").write(s.replace(old, new))
        if build:
            b = subprocess.run(["go", "build", "./..."], cwd=scratch, env=ENV, capture_output=True, text=True)
            if b.returncode != 0:
                res["status"] = "nobuild"; res["detail"] = b.stderr[-400:]
                return res
        out = tempfile.mkdtemp(prefix="hlv-ev-", dir=os.environ.get("TMPDIR", "/tmp"))
        try:
            r = subprocess.run([os.path.join(VERIF, "bin", "hlcheck"), "-prop", v["prop"], "-repo", scratch, "-verif", VERIF, "-out", out],
                               env=ENV, capture_output=True, text=True)
        finally:
            shutil.rmtree(out, ignore_errors=True)
        res["rc"] = r.returncode
        lines = [l.strip() for l in r.stdout.splitlines() if l.strip().startswith(("VIOLATED", "UNDECIDED", "CHECKER-ERROR"))]
        res["reports"] = [l[:300] for l in lines][:6]
        if r.returncode == 2:
            res["status"] = "checker-error"; res["detail"] = (r.stdout + r.stderr)[-400:]
        elif v["kind"] == "seeded":
            hit = r.returncode == 1
            if hit and v.get("rule"):
                hit = any((" " + v["rule"] + ":") in l or l.split()[1].rstrip(":") == v["rule"] for l in lines)
            res["status"] = "killed" if hit else "MISSED"
        else:
            res["status"] = "silent" if r.returncode == 0 else "FALSE-ALARM"
        return res
    finally:
        res["wall_s"] = round(time.time() - t0, 2)
        if not keep:
            shutil.rmtree(scratch, ignore_errors=True)

def use_private_cache(env=ENV):
    """Scratch analyses compile the changed packages: give them a build cache that is removed at exit."""
    import atexit
    d = tempfile.mkdtemp(prefix="hl-gocache-", dir=os.environ.get("TMPDIR", "/tmp"))
    env["GOCACHE"] = d
    atexit.register(lambda: shutil.rmtree(d, ignore_errors=True))
    return d

def main():
    use_private_cache()
    args = sys.argv[1:]
    if not args:
        print(__doc__); sys.exit(2)
    prop = args[0]
    name = None; jobs = 8; keep = False; jout = None; build = False; prefix = None
    i = 1
    while i < len(args):
        if args[i] == "--name": name = args[i+1]; i += 2
        elif args[i] == "--jobs": jobs = int(args[i+1]); i += 2
        elif args[i] == "--prefix": prefix = args[i+1]; i += 2
        elif args[i] == "--json": jout = args[i+1]; i += 2
        elif args[i] == "--keep": keep = True; i += 1
        elif args[i] == "--build": build = True; i += 1
        else: i += 1
    vs = [v for v in load_corpus() if (prop == "all" or v["prop"] == prop) and (name is None or v["name"] == name) and (prefix is None or v["name"].startswith(prefix))]
    results = []
    with concurrent.futures.ThreadPoolExecutor(max_workers=jobs) as ex:
        for r in ex.map(lambda v: run_variant(v, build, keep), vs):
            results.append(r)
            print(f'{r["prop"]} {r["kind"]:6} {r["name"]:40} {r["status"]:12} {r.get("detail","")[:200]}')
            if r["status"] in ("MISSED", "FALSE-ALARM", "checker-error", "nobuild"):
                for l in r.get("reports", []): print("      ", l)
    summary = dict(
        seeded_total=sum(1 for r in results if r["kind"] == "seeded" and r["status"] in ("killed", "MISSED")),
        seeded_killed=sum(1 for r in results if r["status"] == "killed"),
        equiv_total=sum(1 for r in results if r["kind"] == "equiv" and r["status"] in ("silent", "FALSE-ALARM")),
        equiv_silent=sum(1 for r in results if r["status"] == "silent"),
        stale=[r["name"] for r in results if r["status"] == "stale"],
        undetected_variants=[r["name"] for r in results if r["status"] == "MISSED"],
        false_alarm_variants=[r["name"] for r in results if r["status"] == "FALSE-ALARM"],
        errors=[r["name"] for r in results if r["status"] in ("checker-error", "nobuild")],
    )
    print("SUMMARY", json.dumps(summary))
    if jout:
        json.dump(dict(summary=summary, results=results), open(jout, "w"), indent=1)
    bad = summary["undetected_variants"] or summary["false_alarm_variants"] or summary["errors"]
    sys.exit(3 if bad else 0)

if __name__ == "__main__":
    main()
