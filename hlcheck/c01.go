package main

// c01.go — C01: wire format fidelity of every protocol object.

func checkC01(R *Run) {
	R.rule("cursor", "every Read([]byte)(int, error) encoder: (R1) exactly one copy(p, buf[cursor:]) with cursor a field of the receiver; (R2) the only store to the cursor is cursor + n with n the copy's result, and no other receiver field is written (enumerated exception: User.Icon/Flags normalisation); (R3) the copy is guarded by cursor >= len(buf) → return 0, io.EOF; (R4) data is returned as (n, nil); (R5) buf does not depend on the cursor. From R1–R5: the concatenation of the chunks returned for ANY sequence of buffer sizes >= 1 equals buf, and at most len(buf)+1 calls are needed (induction on the cursor value)")
	R.rule("decoder-alias", "a decoder that is handed a bufio.Scanner's token (scanner.Bytes(), which the next Scan or buffer refill overwrites) must copy what it keeps: it may not store a sub-slice of its argument in a receiver field")
	R.rule("fresh-decoder", "a decoder that appends to a field of its receiver (Transaction.Write, FilePath.Write, FileResumeData.UnmarshalBinary) is only invoked on a value created for that decode: a local variable of the calling function, re-created on every iteration when the decode sits in a loop")
	R.ruleDecoderAlias()
	R.ruleFreshDecoder(nil)
	R.floor("fresh-decoder", 8)
	n := R.checkCursor("cursor", nil)
	R.floor("cursor", 10)
	_ = n
	R.rule("frame-feed", "(shared with C02) a positional decoder is only ever handed a whole frame: it is never the destination of io.Copy / io.CopyN / TeeReader from a stream, where each Write would decode whatever one read returned")
	R.ruleFrameFeed()
	R.ruleShiftEncoding()
	checkLayouts(R)
}

func init() { register("C01", checkC01) }
