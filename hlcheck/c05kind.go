package main

// c05kind.go — C05 kind-target-agree: where the privilege demanded depends on the KIND of the object a request
// names (news bundle vs. category), the object whose kind is inspected must be the object that is acted on.
// Decided as agreement between sibling implementations: NewsItem(path) and DeleteNewsItem(path) resolve a news
// path to (container map, key) with the same symbolic signature, and the handler hands both the same value.

import (
	"fmt"
	"go/token"

	"golang.org/x/tools/go/ssa"
)

// lenMinus1: v is len(p) - 1 for the given slice value p.
func lenMinus1(v, p ssa.Value) bool {
	b, ok := v.(*ssa.BinOp)
	if !ok || b.Op != token.SUB {
		return false
	}
	if k, ok := constInt(b.Y); !ok || k != 1 {
		return false
	}
	c, ok := b.X.(*ssa.Call)
	return ok && calleeName(&c.Call) == "builtin.len" && c.Call.Args[0] == p
}

// pathSliceSig: P for the path parameter itself, P[:n-1] for all but its last element.
func pathSliceSig(v ssa.Value, p *ssa.Parameter) string {
	if v == ssa.Value(p) {
		return "P"
	}
	if s, ok := v.(*ssa.Slice); ok && s.X == ssa.Value(p) && s.Max == nil {
		lowOK := s.Low == nil
		if k, ok := constInt(s.Low); s.Low != nil && ok && k == 0 {
			lowOK = true
		}
		if lowOK && s.High != nil && lenMinus1(s.High, p) {
			return "P[:n-1]"
		}
	}
	return "?" + v.Name()
}

// pathKeySig: P[n-1] for the last element of the path parameter.
func pathKeySig(v ssa.Value, p *ssa.Parameter) string {
	if u, ok := v.(*ssa.UnOp); ok && u.Op == token.MUL {
		if ia, ok := u.X.(*ssa.IndexAddr); ok && ia.X == ssa.Value(p) && lenMinus1(ia.Index, p) {
			return "P[n-1]"
		}
	}
	return "?" + v.Name()
}

// newsWalkSig: signature of a category map value: ROOT (the store's top-level Categories), WALK(S) for the map
// reached from ROOT by descending through SubCats along the names of slice S (by the hand-written loop or by a
// helper whose own result has signature WALK(P)).
func (P *Prog) newsWalkSig(v ssa.Value, p *ssa.Parameter, depth int) string {
	if depth > 3 {
		return "?depth"
	}
	isRoot := func(x ssa.Value) bool {
		f, ok := loadedField(x)
		return ok && f == "hotline.ThreadedNews.Categories"
	}
	if isRoot(v) {
		return "ROOT"
	}
	if c, ok := v.(*ssa.Call); ok {
		h, ok := c.Call.Value.(*ssa.Function)
		if !ok || h.Blocks == nil || !P.isRepoPkg(pkgOf(h)) || len(h.Params) != 2 || len(c.Call.Args) != 2 {
			return "?call " + calleeName(&c.Call)
		}
		for _, ret := range returnsOf(h) {
			if P.newsWalkSig(retValue(ret, 0), h.Params[1], depth+1) != "WALK(P)" {
				return "?helper " + fname(h)
			}
		}
		return "WALK(" + pathSliceSig(c.Call.Args[1], p) + ")"
	}
	phi, ok := v.(*ssa.Phi)
	if !ok {
		return "?" + v.Name()
	}
	family := map[*ssa.Phi]bool{}
	var slices []ssa.Value
	okAll := true
	var visit func(x *ssa.Phi)
	visit = func(x *ssa.Phi) {
		if family[x] {
			return
		}
		family[x] = true
		for _, e := range x.Edges {
			if isRoot(e) {
				continue
			}
			if q, ok := e.(*ssa.Phi); ok {
				if family[q] {
					okAll = false // the map is carried round unchanged on some path: a path component can be skipped
					continue
				}
				visit(q)
				continue
			}
			// step: Lookup(phi', elem).SubCats
			fld, ok := e.(*ssa.Field)
			if !ok {
				okAll = false
				continue
			}
			lk, ok := fld.X.(*ssa.Lookup)
			if fn, _ := fieldOf(fld); !ok || fn != "hotline.NewsCategoryListData15.SubCats" {
				okAll = false
				continue
			}
			q, ok := lk.X.(*ssa.Phi)
			if !ok {
				okAll = false
				continue
			}
			visit(q)
			// elem = S[i] with i the range index over S
			u, ok := lk.Index.(*ssa.UnOp)
			if !ok || u.Op != token.MUL {
				okAll = false
				continue
			}
			ia, ok := u.X.(*ssa.IndexAddr)
			if !ok {
				okAll = false
				continue
			}
			lo, hi, ok := indexRange(ia.Index)
			if !ok || lo != 0 {
				okAll = false
				continue
			}
			if lc, ok := hi.(*ssa.Call); !ok || calleeName(&lc.Call) != "builtin.len" || lc.Call.Args[0] != ia.X {
				okAll = false
				continue
			}
			slices = append(slices, ia.X)
		}
	}
	visit(phi)
	if !okAll || len(slices) != 1 {
		return "?walk"
	}
	return "WALK(" + pathSliceSig(slices[0], p) + ")"
}

func (R *Run) ruleKindTargetAgree() {
	P := R.P
	R.rule("kind-target-agree", "where the demanded privilege depends on the kind of the named object (news bundle vs. category), the object inspected and the object acted on are the same: NewsItem(path) and DeleteNewsItem(path) resolve the path to (container reached by walking path[:n-1] from the top-level categories, key path[n-1]) with identical symbolic signatures, and the delete handler passes both the very same decoded path")
	ni := R.mustFn("(*mobius.ThreadedNewsYAML).NewsItem")
	dn := R.mustFn("(*mobius.ThreadedNewsYAML).DeleteNewsItem")
	if ni == nil || dn == nil {
		return
	}
	R.analysed(fname(ni))
	R.analysed(fname(dn))
	// NewsItem: the value returned is a lookup container[key]
	niSig := "?"
	for _, ret := range returnsOf(ni) {
		if len(ret.Block().Preds) == 0 && ret.Block() != ni.Blocks[0] {
			continue // recover block
		}
		rv := retValue(ret, 0)
		lk, ok := rv.(*ssa.Lookup)
		if !ok {
			niSig = "?not a lookup"
			continue
		}
		niSig = P.newsWalkSig(lk.X, ni.Params[1], 0) + " / " + pathKeySig(lk.Index, ni.Params[1])
	}
	dnSig := "?"
	n := 0
	for _, ci := range callsIn(dn) {
		c := ci.Common()
		if calleeName(c) == "builtin.delete" {
			n++
			dnSig = P.newsWalkSig(c.Args[0], dn.Params[1], 0) + " / " + pathKeySig(c.Args[1], dn.Params[1])
		}
	}
	if gc := P.fn("(*mobius.ThreadedNewsYAML).getCatByPath"); gc != nil {
		sig := "?"
		for _, ret := range returnsOf(gc) {
			sig = P.newsWalkSig(retValue(ret, 0), gc.Params[1], 0)
		}
		R.check(sig == "WALK(P)", "kind-target-agree", "ThreadedNewsYAML.getCatByPath", P.pos(gc.Pos()), "descends one level per path component, unconditionally", "getCatByPath does not resolve a path component by component (signature "+sig+"): a missing or stale component is skipped, so requests addressed to one place act on another")
	}
	want := "WALK(P[:n-1]) / P[n-1]"
	R.check(niSig == want && dnSig == want && n == 1, "kind-target-agree", "ThreadedNewsYAML.NewsItem vs DeleteNewsItem", P.pos(dn.Pos()),
		"both resolve the path to "+want,
		fmt.Sprintf("the item whose type selects the privilege and the item that is deleted are not resolved the same way: NewsItem resolves to %q, DeleteNewsItem deletes %q (expected both %q): a path can be classified as one kind of item while another item is removed", niSig, dnSig, want))
	// handler: same value to both
	for _, reg := range R.registeredHandlers() {
		var a, b ssa.Value
		for _, ci := range callsIn(reg.Fn) {
			c := ci.Common()
			if !c.IsInvoke() || len(c.Args) == 0 {
				continue
			}
			switch c.Method.Name() {
			case "NewsItem":
				a = c.Args[0]
			case "DeleteNewsItem":
				b = c.Args[0]
			}
		}
		if b == nil {
			continue
		}
		R.check(a != nil && a == b, "kind-target-agree", fname(reg.Fn)+": classified path = deleted path", P.pos(reg.Fn.Pos()), "NewsItem and DeleteNewsItem receive the same value", "the handler classifies one path and deletes another")
	}
	R.floor("kind-target-agree", 2)
}

// ruleSpecialFolder: the two special-folder predicates that open an exception in the upload / listing guards
// (IsUploadDir, IsDropbox) decide on the LAST item of the client's path only — the folder that is acted on — by
// a case-insensitive substring test against their constant.  A predicate that looks at other path items can be
// satisfied by a path that resolves elsewhere ("Uploads/..").
func (R *Run) ruleSpecialFolder() {
	P := R.P
	R.rule("special-folder-last-item", "IsUploadDir / IsDropbox return false for an empty path and otherwise strings.Contains(strings.ToLower(name of Items[Len()-1]), constant) — outside any loop, directly or through one helper handed the constant: the exception they grant is about the folder the request acts on, not about any folder named along the way")
	for _, it := range []struct{ fn, want string }{{"(*hotline.FilePath).IsDropbox", "drop box"}, {"(*hotline.FilePath).IsUploadDir", "upload"}} {
		fn := R.mustFn(it.fn)
		if fn == nil {
			continue
		}
		R.analysed(fname(fn))
		var why []string
		var judge func(f *ssa.Function, constOf func(v ssa.Value) (string, bool), depth int) int
		judge = func(f *ssa.Function, constOf func(v ssa.Value) (string, bool), depth int) int {
			nContains := 0
			for _, ret := range returnsOf(f) {
				if len(ret.Block().Preds) == 0 && ret.Block() != f.Blocks[0] {
					continue
				}
				vals := []ssa.Value{retValue(ret, 0)}
				if phi, isPhi := vals[0].(*ssa.Phi); isPhi {
					vals = phi.Edges // a result collected in a variable: every value it can hold
				}
				for _, v := range vals {
					if c, ok := v.(*ssa.Const); ok && c.Value != nil && c.Value.String() == "false" {
						continue
					}
					call, ok := v.(*ssa.Call)
					if !ok {
						why = append(why, "a return of "+fname(f)+" is neither false nor the substring test: "+P.sym(v))
						continue
					}
					if calleeName(&call.Call) == "strings.Contains" {
						nContains++
						k, isK := constOf(call.Call.Args[1])
						if !isK || k != it.want {
							why = append(why, fmt.Sprintf("the substring tested is %q, not %q", k, it.want))
						}
						if inLoop(call.Block()) {
							why = append(why, "the test runs inside a loop over the path items")
						}
						last := false
						lower := false
						P.reaches(call.Call.Args[0], func(x ssa.Value) bool {
							if cx, ok := x.(*ssa.Call); ok && calleeName(&cx.Call) == "strings.ToLower" {
								lower = true
							}
							ia, ok := x.(*ssa.IndexAddr)
							if !ok {
								return false
							}
							if fld, ok := loadedField(ia.X); !ok || fld != "hotline.FilePath.Items" {
								return false
							}
							if b, ok := stripConv(ia.Index).(*ssa.BinOp); ok && b.Op == token.SUB {
								if one, ok := constInt(b.Y); ok && one == 1 {
									if lc, ok := stripConv(b.X).(*ssa.Call); ok {
										n := calleeName(&lc.Call)
										if n == "(*hotline.FilePath).Len" || n == "builtin.len" {
											last = true
										}
									}
								}
							}
							return false
						})
						if !last {
							why = append(why, "the name tested is not that of Items[Len()-1]")
						}
						if !lower {
							why = append(why, "the name is not lower-cased before the test")
						}
						continue
					}
					h, isFn := call.Call.Value.(*ssa.Function)
					if !isFn || h.Blocks == nil || !P.isRepoPkg(pkgOf(h)) || depth > 0 {
						why = append(why, "a return of "+fname(f)+" is neither false nor the substring test: "+P.sym(v))
						continue
					}
					inner := func(x ssa.Value) (string, bool) {
						if s, ok := constString(x); ok {
							return s, true
						}
						for i, prm := range h.Params {
							if x == ssa.Value(prm) && i < len(call.Call.Args) {
								return constOf(call.Call.Args[i])
							}
						}
						return "", false
					}
					if len(call.Call.Args) == 0 || call.Call.Args[0] != ssa.Value(f.Params[0]) {
						why = append(why, "the helper is not applied to the receiver's own path")
					}
					nContains += judge(h, inner, depth+1)
				}
			}
			return nContains
		}
		n := judge(fn, func(v ssa.Value) (string, bool) { return constString(v) }, 0)
		if n == 0 {
			why = append(why, "no substring test found")
		}
		R.check(len(why) == 0, "special-folder-last-item", fname(fn), P.pos(fn.Pos()), "false for the empty path, else Contains(ToLower(last item's name), \""+it.want+"\")", "the special-folder predicate does not decide on the last path item alone: "+fmt.Sprint(why))
	}
	R.floor("special-folder-last-item", 2)
}

// rulePathCountAgree: the special-folder predicates look at Items[Len()-1] (Len = the announced item count) while
// ReadPath walks every decoded item: both are about the same path only if the decoder stores exactly as many items as
// the count announces.
func (R *Run) rulePathCountAgree() {
	P := R.P
	R.rule("path-count-agree", "FilePath.Write appends to Items only inside a counting loop i = 0 .. ItemCount-1 (bound read from the ItemCount it just decoded): the items the guards inspect (Items[Len()-1]) and the items ReadPath resolves are the same list")
	fn := R.mustFn("(*hotline.FilePath).Write")
	if fn == nil {
		return
	}
	R.analysed(fname(fn))
	n := 0
	for _, ci := range callsIn(fn) {
		c := ci.Common()
		if calleeName(c) != "builtin.append" {
			continue
		}
		if f, ok := loadedField(c.Args[0]); !ok || f != "hotline.FilePath.Items" {
			continue
		}
		n++
		bounded := false
		for _, b := range fn.Blocks {
			for _, ins := range b.Instrs {
				phi, isPhi := ins.(*ssa.Phi)
				if !isPhi {
					break
				}
				lo, hi, ok := indexRange(phi)
				if !ok || lo != 0 || !b.Dominates(ci.Block()) || !inLoop(ci.Block()) {
					continue
				}
				// the body (where the append is) is entered only on the true edge of i < hi
				if len(b.Succs) == 2 && !(b.Succs[0] == ci.Block() || b.Succs[0].Dominates(ci.Block())) {
					continue
				}
				if P.reaches(hi, func(x ssa.Value) bool {
					fa, isFA := x.(*ssa.FieldAddr)
					if !isFA {
						return false
					}
					f, _ := fieldOf(fa)
					return f == "hotline.FilePath.ItemCount"
				}) {
					bounded = true
				}
			}
		}
		R.check(bounded, "path-count-agree", fmt.Sprintf("%s: append to Items #%d", fname(fn), n), P.ipos(ci), "inside the loop i < ItemCount", "items are appended without the announced count bounding their number: a path that carries more items than it announces is judged by its announced last item (upload / drop-box exceptions) but resolved through all of them")
	}
	if n == 0 {
		R.und("path-count-agree", fname(fn), P.pos(fn.Pos()), "no append to Items found (decoder changed shape)")
	}
}
